"""C18  Value equality and hashing are coherent (hashable-value).  DESIGN.md section 4, C18.  Config `all`."""
from .. import hir as H
from .. import paths as P
from ..facts import walk

META = ("other",
        "By symbolic interpretation (shape rules as fallback): Value::eq is interpreted on every pair of variants with payloads "
        "NULL / a and on every pair of payloads NULL / a / b of one variant (4263 rows): equal exactly when variant and payload "
        "are the same, symmetric; Value::hash is interpreted on every variant: the discriminant is fed first; what eq compares "
        "and what hash feeds are recorded with the normal form they are wrapped in (OrderedFloat, serde_json::to_string, plain) "
        "and must agree per variant, float payloads never in plain form.  "
        "C18.R1 Value::eq is diagonal and total: one arm per enabled variant pairing it with itself, no cross-variant arm, "
        "wildcard => false; R2 per variant the comparator used by eq and the hasher used by hash form a coherent pair (== with "
        ".hash on the same non-float payload type; cmp_f32/hash_f32, cmp_f64/hash_f64 both through OrderedFloat; cmp_json/"
        "hash_json both through serde_json::to_string; cmp_vector/hash_vector element-wise through the f32 pair); R3 no raw float "
        "== and no to_bits anywhere in the comparators/hashers; R4 hash feeds mem::discriminant first, has no wildcard arm, "
        "covers every variant; Eq is implemented; ValueTuple derives PartialEq/Eq/Hash",
        "one obligation per Value variant and per helper function")

V = "crate::value::Value"
PAIRS = {"cmp_f32": "hash_f32", "cmp_f64": "hash_f64", "cmp_json": "hash_json", "cmp_vector": "hash_vector"}
FLOATY = ("f32", "f64")


def is_float_ty(t):
    t = t.replace("&", "").replace("mut ", "").strip()
    return t in FLOATY or t in ("core::option::Option<f32>", "core::option::Option<f64>") or "Vec<f32>" in t or "Vec<f64>" in t or t in ("[f32]", "[f64]")


def variant_of(pat):
    """(variant def, binding names) for a tuple-struct variant pattern with plain bindings"""
    if pat.get("k") == "ref":
        pat = pat["sub"]
    if pat.get("k") != "variant":
        return None, None
    subs = pat.get("subs") or []
    names = []
    for s in subs:
        if s.get("k") == "bind":
            names.append(s["name"])
        elif s.get("k") == "wild":
            names.append(None)
        else:
            return pat["path"].get("def"), None
    return pat["path"].get("def"), names


def helper_calls(f, fn):
    out = []
    for c in H.calls(fn["hir"]):
        out.append(H.callee(c) or "")
    return out


# ---- symbolic interpretation ---------------------------------------------------------------------------------------------
# Value::eq and Value::hash (with every helper they call) are interpreted on values whose payloads are symbolic atoms.  What
# is compared and what is fed to the hasher is recorded together with the normal form it is wrapped in (OrderedFloat,
# serde_json::to_string, none); coherence is: per variant, eq and hash use the same normal form on the same payload, floats
# never the plain one, the discriminant is hashed first, and eq is the diagonal relation.

def _sym_engine(f):
    from ..interp import Interp, Opaque, Sym, Unsupported, Var
    it = Interp(f)
    it.free_opaque = True
    it.max_depth = 10
    rec = {"cmp": [], "hash": []}

    def nf(v):
        if isinstance(v, Var) and v.d == "ordered_float::OrderedFloat" and len(v.fields) == 1:
            return ("OrderedFloat", v.fields[0])
        if isinstance(v, Var) and v.d.startswith("nf:"):
            return (v.d[3:], v.fields[0])
        if isinstance(v, str):
            return ("const", v)
        if isinstance(v, tuple) and len(v) == 2 and v[0] == "__some":
            a, b = nf(v[1])
            return (a, ("__some", b))
        return ("plain", v)

    def symbolic(v):
        if isinstance(v, Sym) or (isinstance(v, Var) and v.d.startswith("nf:")):
            return True
        if isinstance(v, Var):
            return any(symbolic(x) for x in v.fields)
        if isinstance(v, (list, tuple)):
            return any(symbolic(x) for x in v)
        return False

    def mixed(l_, r_):
        # a symbolic payload (or a rendering of one) compared with a constant: equal for *some* payload, for all we know -
        # the atoms are only ever equal to themselves, so this comparison cannot be decided here
        for x_, y_ in ((l_, r_), (r_, l_)):
            if symbolic(x_) and isinstance(y_, (str, int, float)) and not isinstance(y_, bool):
                raise Unsupported("a symbolic payload is compared with the constant %r" % (y_,))

    def unknown(it_, e, env, depth):
        callee = H.callee(e) or ""
        decl = e.get("callee") or ""
        name = e.get("name") or decl.rsplit("::", 1)[-1]
        vals = ([it_.ev(e["recv"], env, depth)] if e.get("k") == "mcall" else []) + [it_.ev(a, env, depth) for a in e.get("args") or []]

        if (decl == "core::cmp::PartialEq::eq" or callee.endswith("PartialEq>::eq")) and len(vals) == 2:
            mixed(vals[0], vals[1])
            rec["cmp"].append((nf(vals[0]), nf(vals[1])))
            return vals[0] == vals[1]
        if (decl == "core::cmp::PartialEq::ne" or callee.endswith("PartialEq>::ne")) and len(vals) == 2:
            mixed(vals[0], vals[1])
            rec["cmp"].append((nf(vals[0]), nf(vals[1])))
            return vals[0] != vals[1]
        if decl == "core::hash::Hash::hash" and len(vals) == 2:
            rec["hash"].append(nf(vals[0]))
            return ()
        if decl == "core::mem::discriminant" and vals and isinstance(vals[0], Var):
            return Var("nf:discriminant", [vals[0].d])
        if (callee or decl).startswith("serde_json::") and (callee or decl).endswith("to_string") and vals:
            return ("Ok", Var("nf:serde_json::to_string", [vals[0]]))
        if name in ("as_slice", "as_ref", "deref", "clone", "iter", "as_str", "to_vec") and vals and (isinstance(vals[0], (list, Opaque))):
            return vals[0]
        raise Unsupported("call %s" % (callee or decl or name))
    it.unknown_call = unknown
    it.builtins = {"core::mem::discriminant": lambda it_, a: Var("nf:discriminant", [a[0].d if isinstance(a[0], Var) else repr(a[0])]),
                   "core::intrinsics::discriminant_value": lambda it_, a: (a[0].d if isinstance(a[0], Var) else repr(a[0]))}
    # Eq / Hash of a payload type (std, third-party, or derived in the crate) is one atomic step in its plain form
    it.opaque_call = lambda e: (e.get("callee") or "") in ("core::cmp::PartialEq::eq", "core::cmp::PartialEq::ne", "core::hash::Hash::hash")

    def on_cmp(l, r):
        if isinstance(l, (int, bool)) and isinstance(r, (int, bool)):
            return          # lengths and flags, not payload
        mixed(l, r)
        rec["cmp"].append((nf(l), nf(r)))
    it.cmp_hook = on_cmp
    return it, rec


def _payloads(f, vdef, fields):
    """symbolic payloads of one variant: (label, field values)"""
    from ..interp import Sym, Var
    t = f.ty(fields[-1]["ty"])
    lead = [Var("crate::value::ArrayType::Int")] * (len(fields) - 1)

    def some(x):
        return ("__some", x)
    if "pgvector" in t:
        return [("null", lead + [None]), ("a", lead + [some([Sym("a0"), Sym("a1")])]), ("b", lead + [some([Sym("a0"), Sym("b1")])]), ("short", lead + [some([Sym("a0")])])]
    if "Vec<crate::value::Value>" in t:
        el = lambda s_: Var(V + "::Int", [some(Sym(s_))])
        out = [("null", lead + [None]), ("a", lead + [some([el("a")])]), ("b", lead + [some([el("b")])])]
        if lead:
            # the leading components (the element type of an array) vary too: another type with the same payloads
            lead2 = [Var("crate::value::ArrayType::String")] * len(lead)
            out += [("null/other-type", lead2 + [None]), ("a/other-type", lead2 + [some([el("a")])]), ("empty", lead + [some([])]), ("empty/other-type", lead2 + [some([])])]
        return out
    return [("null", lead + [None]), ("a", lead + [some(Sym("a"))]), ("b", lead + [some(Sym("b"))])]


def check_symbolic(run, f, cfg, variants, eqn, hn):
    """True when eq / hash were decided by interpretation"""
    from ..interp import Unsupported, Diverged, Var
    a = f.adts[V]
    eqfn, hfn = f.fns[eqn], f.fns[hn]
    rows = {}
    try:
        vals = {}
        for vv in a["variants"]:
            vals[vv["def"]] = [(lab, Var(vv["def"], fl)) for lab, fl in _payloads(f, vv["def"], vv["fields"])]
        # hash traces
        htrace = {}
        for d, lst in vals.items():
            for lab, v in lst:
                it, rec = _sym_engine(f)
                it.call_fn(hn, [v, None if False else __import__("sqv.interp", fromlist=["Opaque"]).Opaque("state")])
                htrace[(d, lab)] = rec["hash"]
        # eq on every pair of variants (payload a / null) and every pair of payloads of one variant
        eqres = {}
        eqcmp = {}
        same = {}
        for d1, l1 in vals.items():
            for d2, l2 in vals.items():
                for lab1, v1 in l1:
                    for lab2, v2 in l2:
                        if d1 != d2 and (lab1 not in ("null", "a") or lab2 not in ("null", "a")):
                            continue
                        if d1 == d2:
                            same[(d1, lab1, lab2)] = None
                        it, rec = _sym_engine(f)
                        r = it.call_fn(eqn, [v1, v2])
                        if not isinstance(r, bool):
                            raise Unsupported("eq returns %r" % (r,))
                        eqres[(d1, lab1, d2, lab2)] = r
                        if d1 == d2 and lab1 == lab2 == "a":
                            eqcmp[d1] = rec["cmp"]
    except (Unsupported, Diverged) as e:
        if "a symbolic payload is compared with the constant" in str(e):
            # not a gap of the interpreter: equality really depends on whether some payload (or its rendering) coincides with a
            # constant - e.g. an absent value standing in as "null" next to the rendering of a present one
            run.ob("C18.R1", "eq:payload-vs-constant", False,
                   "Value::eq / Value::hash: %s - for a payload that coincides with it, a present value and the stand-in for the absent one "
                   "(or two different values) compare equal; equality must be decided on the Option structure first" % e, sp=f.fns[eqn]["sp"] if eqn in f.fns else None, cfg=cfg)
        run.notes.append("C18 eq/hash outside the interpreter's fragment (%s): decided by the shape rules" % e)
        return False
    nrows = len(eqres)
    for vv in a["variants"]:
        d = vv["def"]
        short = d.rsplit("::", 1)[-1]
        labs = [lab for lab, _ in vals[d]]
        # same variant: equal exactly when the payloads are the same
        bad = ["%s vs %s -> %s" % (x, y, eqres[(d, x, d, y)]) for x in labs for y in labs if eqres[(d, x, d, y)] != (x == y)]
        run.ob("C18.R1", "eq:diagonal:%s" % short, not bad,
               "eq on two %s values (interpreted on symbolic payloads: NULL, a, b) holds exactly when the payloads are the same%s" % (short, "" if not bad else " - NOT: " + "; ".join(bad)),
               sp=eqfn["sp"], cfg=cfg)
        cross = ["%s(%s) == %s(%s)" % (short, x, d2.rsplit("::", 1)[-1], y) for (d1, x, d2, y), r in eqres.items() if d1 == d and d2 != d and r] + \
                ["%s(%s) == %s(%s)" % (d1.rsplit("::", 1)[-1], x, short, y) for (d1, x, d2, y), r in eqres.items() if d2 == d and d1 != d and r]
        run.ob("C18.R1", "eq:covered:%s" % short, not cross, "a %s value never equals a value of another variant (both orders, NULL and non-NULL)%s" % (
            short, "" if not cross else " - NOT: " + "; ".join(cross[:3])), sp=eqfn["sp"], cfg=cfg)
        # equal values hash equally: whenever eq holds, the two hash traces are the same
        incoh = ["%s == %s but they are hashed differently" % (x, y) for x in labs for y in labs if eqres[(d, x, d, y)] and htrace[(d, x)] != htrace[(d, y)]]
        run.ob("C18.R2", "hash:coherent:%s" % short, not incoh, "two %s values that eq holds for feed the same sequence to the hasher (%d pairs)%s" % (
            short, len(labs) ** 2, "" if not incoh else " - NOT: " + "; ".join(incoh[:3])), sp=hfn["sp"], cfg=cfg)
        # pairing of normal forms
        ht = htrace[(d, "a")]
        hn0 = htrace[(d, "null")]
        disc_first = bool(ht) and ht[0] == ("discriminant", d) and bool(hn0) and hn0[0] == ("discriminant", d)
        run.ob("C18.R4", "hash:covered:%s" % short, disc_first and len(ht) >= 2 and len(hn0) >= 2,
               "hash of a %s value feeds the discriminant first and then its payload (NULL and non-NULL)" % short, sp=hfn["sp"], cfg=cfg, detail={"some": repr(ht), "null": repr(hn0)})
        eq_nf = sorted(set((l[0], repr(l[1])) for l, r in eqcmp.get(d, [])))
        def leaves(x):
            # a payload hashed element by element (vector) counts as its elements
            return x
        h_nf = sorted(set((n_, repr(x_)) for n_, x_ in ht[1:]))
        floaty = any(t_ in f.ty(vv["fields"][-1]["ty"]) for t_ in ("f32", "f64", "pgvector"))
        plain_float = floaty and (any(n_ == "plain" for n_, _ in eq_nf) or any(n_ == "plain" for n_, _ in h_nf))
        ok = bool(eq_nf) and eq_nf == h_nf and not plain_float
        if not ok and eq_nf and h_nf and not plain_float:
            # element-wise on one side, whole on the other (vector / array): same normal form over the same atoms
            ok = set(n_ for n_, _ in eq_nf) == set(n_ for n_, _ in h_nf) and \
                sorted(set(__import__("re").findall(r"<[a-z0-9]+>", " ".join(x for _, x in eq_nf)))) == sorted(set(__import__("re").findall(r"<[a-z0-9]+>", " ".join(x for _, x in h_nf))))
        run.ob("C18.R2", "pair:%s" % short, ok,
               "variant %s: eq compares and hash feeds the same payload in the same normal form (%s)%s" % (
                   short, ", ".join(sorted(set(n_ for n_, _ in eq_nf))) or "?", "" if ok else " - NOT: eq uses %s, hash uses %s%s" % (eq_nf, h_nf, "; a float payload in its plain form" if plain_float else "")),
               sp=eqfn["sp"], cfg=cfg)
    okd = all(t and t[0][0] == "discriminant" for t in htrace.values())
    run.ob("C18.R4", "hash:discriminant-first", okd, "every hash trace starts with mem::discriminant(self) (%d traces)" % len(htrace), sp=hfn["sp"], cfg=cfg)
    # symmetric
    asym = [k for k, r in eqres.items() if eqres.get((k[2], k[3], k[0], k[1])) != r]
    run.ob("C18.R1", "eq:symmetric", not asym, "eq is symmetric on all %d interpreted pairs" % nrows, sp=eqfn["sp"], cfg=cfg)
    run.floor("C18.R1", "eq-rows", nrows, 3000, cfg)
    return True


def check(run):
    cfg = "all"
    f = run.facts(cfg)
    a = f.adts.get(V)
    if a is None:
        run.anchor("C18.R1", "Value", "enum Value not found", cfg)
        return
    variants = [v["def"] for v in a["variants"]]
    eqn = f.impl_fn("core::cmp::PartialEq", V, "eq")
    hn = f.impl_fn("core::hash::Hash", V, "hash")
    if not eqn or not hn:
        run.anchor("C18.R1", "impls", "PartialEq/Hash impls for Value not found in config all (hashable-value)", cfg)
        return
    eqimpl = [i for i in f.impls if i.get("trait") == "core::cmp::PartialEq" and i.get("self_adt") == V][0]
    run.ob("C18.R1", "manual-impl", not eqimpl.get("derived"), "PartialEq for Value is the hand-written impl of mod hashable_value", sp=eqimpl["sp"], cfg=cfg, trivial=True)
    eqfn, hfn = f.fns[eqn], f.fns[hn]
    if check_symbolic(run, f, cfg, variants, eqn, hn):
        check_rest(run, f, cfg, variants, eqn, hn)
        return
    # ---- eq: one top-level match on (self, other)
    body = H.peel(eqfn["hir"])
    ms = [n for n in walk(eqfn["hir"]) if n.get("k") == "match" and n.get("src") == "Normal"]
    if len(ms) != 1 or ms[0]["scrut"].get("k") != "tuple" or [H.place(x) for x in ms[0]["scrut"]["es"]] != ["self", "other"]:
        run.anchor("C18.R1", "eq.match", "Value::eq is not a single `match (self, other)`", cfg)
        return
    tail = H.peel(body)
    run.ob("C18.R1", "eq:is-match", tail is ms[0], "Value::eq consists of the match only (no early returns / pre-checks)", sp=eqfn["sp"], cfg=cfg)
    eq_arms = {}
    wild = None
    for arm in ms[0]["arms"]:
        pat = arm["pat"]
        if pat.get("k") == "wild":
            wild = arm
            continue
        if pat.get("k") != "tuple" or len(pat["subs"]) != 2:
            run.ob("C18.R1", "eq:arm-shape", False, "unrecognised arm pattern in Value::eq", sp=arm["sp"], cfg=cfg)
            continue
        (lv, ln), (rv, rn) = variant_of(pat["subs"][0]), variant_of(pat["subs"][1])
        short = (lv or "?").rsplit("::", 1)[-1]
        run.ob("C18.R1", "eq:diagonal:%s" % short, lv is not None and lv == rv and ln is not None and rn is not None and not arm.get("guard"),
               "eq arm pairs variant %s with itself (no cross-variant equality, no guard)" % short, sp=arm["sp"], cfg=cfg,
               detail={"left": lv, "right": rv})
        if lv in eq_arms:
            run.ob("C18.R1", "eq:duplicate:%s" % short, False, "two eq arms for variant %s" % short, sp=arm["sp"], cfg=cfg)
        eq_arms[lv] = (arm, ln, rn)
    for v in variants:
        run.ob("C18.R1", "eq:covered:%s" % v.rsplit("::", 1)[-1], v in eq_arms,
               "variant %s has its own eq arm (otherwise it falls to `_ => false` and is not reflexive)" % v.rsplit("::", 1)[-1], sp=eqfn["sp"], cfg=cfg)
    wb = H.peel(wild["body"]) if wild else None
    run.ob("C18.R1", "eq:wildcard-false", wild is not None and wb.get("k") == "lit" and wb["lit"]["v"] is False,
           "the wildcard arm of eq yields false (different variants are never equal)", sp=wild["sp"] if wild else eqfn["sp"], cfg=cfg)
    # ---- hash
    hms = [n for n in walk(hfn["hir"]) if n.get("k") == "match" and n.get("src") == "Normal"]
    if len(hms) != 1 or H.place(hms[0]["scrut"]) != "self":
        run.anchor("C18.R4", "hash.match", "Value::hash is not a single `match self`", cfg)
        return
    hash_arms = {}
    for arm in hms[0]["arms"]:
        if arm["pat"].get("k") == "wild":
            run.ob("C18.R4", "hash:no-wildcard", False, "Value::hash has a wildcard arm (a new variant would silently hash by discriminant only or wrongly)", sp=arm["sp"], cfg=cfg)
            continue
        hv, hnames = variant_of(arm["pat"])
        hash_arms[hv] = (arm, hnames)
    run.ob("C18.R4", "hash:no-wildcard", True, "Value::hash has no wildcard arm (exhaustiveness is compiler-checked)", sp=hfn["sp"], cfg=cfg, trivial=True)
    for v in variants:
        run.ob("C18.R4", "hash:covered:%s" % v.rsplit("::", 1)[-1], v in hash_arms, "variant %s has a hash arm" % v.rsplit("::", 1)[-1], sp=hfn["sp"], cfg=cfg)
    # discriminant first
    ps = [p for p in P.fn_paths(hfn["hir"]) if p.out != "diverge"]
    okd = bool(ps)
    for p in ps:
        cs = p.calls()
        if len(cs) < 2 or cs[0].get("callee") != "core::mem::discriminant" or H.place(cs[0]["args"][0]) != "self" or \
                cs[1].get("name") != "hash" or H.peel_ref(cs[1]["recv"]) is not cs[0]:
            okd = False
    run.ob("C18.R4", "hash:discriminant-first", okd, "every path of Value::hash first feeds mem::discriminant(self) into the hasher (%d paths)" % len(ps), sp=hfn["sp"], cfg=cfg)
    # ---- R2 per-variant pairing
    for v in variants:
        short = v.rsplit("::", 1)[-1]
        if v not in eq_arms or v not in hash_arms:
            continue
        earm, ln, rn = eq_arms[v]
        harm, hnames = hash_arms[v]
        eb = H.peel(earm["body"])
        hb = H.peel(harm["body"])
        if hb.get("k") == "semi":
            hb = hb["e"]
        ok = False
        why = ""
        # collect (comparator kind, payload) components for eq: conjunction of `x == y`
        def eq_components(e):
            e = H.peel(e)
            if e.get("k") == "binary" and e["op"] == "&&":
                return eq_components(e["l"]) + eq_components(e["r"])
            return [e]
        ecs = eq_components(eb)
        # hash components: sequence of statements
        hcs = []
        if hb.get("k") == "block":
            for s in hb["stmts"]:
                hcs.append(s["e"] if s.get("k") == "semi" else s)
            if hb.get("expr") is not None:
                hcs.append(hb["expr"])
        else:
            hcs = [hb]
        if len(ecs) == len(hcs) and ln and rn and hnames and len(ln) == len(ecs):
            ok = True
            for i, (e, h) in enumerate(zip(ecs, hcs)):
                e, h = H.peel(e), H.peel(h)
                if e.get("k") == "binary" and e["op"] == "==":
                    lt = f.ty(e["lty"])
                    good = (H.place(e["l"]) == ln[i] and H.place(e["r"]) == rn[i] and not is_float_ty(lt)
                            and h.get("k") == "mcall" and h["name"] == "hash" and (h.get("callee") == "core::hash::Hash::hash")
                            and H.place(h["recv"]) == hnames[i] and f.ty(h["recv_ty"]) == lt)
                    why += "%s==/hash on %s; " % ("" if good else "MISMATCH ", lt)
                    ok = ok and good
                elif e.get("k") == "call" and (e.get("callee") or "").rsplit("::", 1)[-1] in PAIRS:
                    cn = e["callee"].rsplit("::", 1)[-1]
                    good = ([H.place(x) for x in e["args"]] == [ln[i], rn[i]]
                            and h.get("k") == "call" and (h.get("callee") or "").rsplit("::", 1)[-1] == PAIRS[cn]
                            and H.place(h["args"][0]) == hnames[i])
                    why += "%s%s/%s; " % ("" if good else "MISMATCH ", cn, (h.get("callee") or h.get("name") or "?").rsplit("::", 1)[-1])
                    ok = ok and good
                else:
                    ok = False
                    why += "unrecognised comparator; "
        else:
            why = "component counts differ (eq %d, hash %d)" % (len(ecs), len(hcs))
        run.ob("C18.R2", "pair:%s" % short, ok, "variant %s: comparator and hasher are a coherent pair over the same payload (%s)" % (short, why.strip()),
               sp=earm["sp"], cfg=cfg)
    # ---- helpers
    helpers = {k.rsplit("::", 1)[-1]: k for k in f.fns if k.startswith("crate::value::hashable_value::") and f.fns[k].get("kind") == "fn"}
    OF_EQ = "<ordered_float::OrderedFloat<T> as core::cmp::PartialEq>::eq"
    OF_HASH = "<ordered_float::OrderedFloat<T> as core::hash::Hash>::hash"
    for fl in ("f32", "f64"):
        c, h = helpers.get("cmp_" + fl), helpers.get("hash_" + fl)
        if not c or not h:
            run.anchor("C18.R2", "helpers:" + fl, "cmp_%s/hash_%s not found" % (fl, fl), cfg)
            continue
        cfn = f.fns[c]
        # arms table of cmp: (Some, Some) -> OrderedFloat eq ; (None, None) -> true ; _ -> false
        m = [n for n in walk(cfn["hir"]) if n.get("k") == "match" and n.get("src") == "Normal"]
        table = {}
        if len(m) == 1:
            for arm in m[0]["arms"]:
                pat = arm["pat"]
                if pat.get("k") == "wild":
                    key = "_"
                elif pat.get("k") == "tuple":
                    key = tuple((variant_of(s)[0] or "?").rsplit("::", 1)[-1] for s in pat["subs"])
                else:
                    key = "?"
                b = H.peel(arm["body"])
                if b.get("k") == "lit":
                    table[key] = b["lit"]["v"]
                elif b.get("k") == "mcall" and H.callee(b) == OF_EQ:
                    # both sides wrapped in OrderedFloat of the two bindings
                    l = H.peel_ref(b["recv"])
                    r = H.peel_ref(b["args"][0])
                    names = [n2 for s in pat["subs"] for n2 in (variant_of(s)[1] or [])] if pat.get("k") == "tuple" else []
                    wrapped = [x.get("callee") == "ordered_float::OrderedFloat" and H.place(x["args"][0]) for x in (l, r)]
                    table[key] = "of-eq" if wrapped == names and len(names) == 2 else "of-eq?"
                else:
                    table[key] = "other"
        want = {("Some", "Some"): "of-eq", ("None", "None"): True, "_": False}
        run.ob("C18.R2", "cmp_%s:table" % fl, table == want,
               "cmp_%s: (Some,Some) -> OrderedFloat(l) == OrderedFloat(r), (None,None) -> true, otherwise false" % fl, sp=cfn["sp"], cfg=cfg, detail=str(table))
        hcalls = helper_calls(f, f.fns[h])
        run.ob("C18.R2", "hash_%s:ordered-float" % fl, OF_HASH in hcalls and "ordered_float::OrderedFloat" in hcalls,
               "hash_%s hashes Some(v) through OrderedFloat (same normalisation as cmp_%s: NaN == NaN, -0 == +0)" % (fl, fl), sp=f.fns[h]["sp"], cfg=cfg)
    if "cmp_json" in helpers or V + "::Json" in variants:
        cj, hj = helpers.get("cmp_json"), helpers.get("hash_json")
        if not cj or not hj:
            run.anchor("C18.R2", "helpers:json", "cmp_json/hash_json not found", cfg)
        else:
            cc, hc = helper_calls(f, f.fns[cj]), helper_calls(f, f.fns[hj])
            ts = [x for x in cc if x.startswith("serde_json::") and x.endswith("to_string")]
            run.ob("C18.R2", "json:pair", len(ts) == 2 and any(x.startswith("serde_json::") and x.endswith("to_string") for x in hc)
                   and any(x.endswith("Hash>::hash") or x.endswith("Hash::hash") for x in hc),
                   "cmp_json compares and hash_json hashes the same serde_json::to_string rendering", sp=f.fns[cj]["sp"], cfg=cfg, detail={"cmp": cc, "hash": hc})
    if "cmp_vector" in helpers or V + "::Vector" in variants:
        cv, hv = helpers.get("cmp_vector"), helpers.get("hash_vector")
        if not cv or not hv:
            run.anchor("C18.R2", "helpers:vector", "cmp_vector/hash_vector not found", cfg)
        else:
            cc, hc = helper_calls(f, f.fns[cv]), helper_calls(f, f.fns[hv])
            run.ob("C18.R2", "vector:pair", helpers.get("cmp_f32") in cc and helpers.get("hash_f32") in hc and any(x.endswith("::len") for x in cc),
                   "cmp_vector compares lengths and elements through cmp_f32; hash_vector hashes elements through hash_f32", sp=f.fns[cv]["sp"], cfg=cfg)
    check_rest(run, f, cfg, variants, eqn, hn)


def check_rest(run, f, cfg, variants, eqn, hn):
    helpers = {k.rsplit("::", 1)[-1]: k for k in f.fns if k.startswith("crate::value::hashable_value::") and f.fns[k].get("kind") == "fn"}
    # ---- R3 raw float comparison / bit hashing
    n = 0
    for name in [eqn, hn] + sorted(helpers.values()):
        fn = f.fns[name]
        if "test" in name.rsplit("::", 1)[-1]:
            continue
        for x in walk(fn["hir"]):
            n += 1
            if x.get("k") == "binary" and x["op"] in ("==", "!=", "<", ">", "<=", ">=") and is_float_ty(f.ty(x["lty"])):
                run.ob("C18.R3", "raw-float-cmp:%s" % name.rsplit("::", 1)[-1], False,
                       "%s compares floats with `%s` (NaN would be irreflexive; must go through OrderedFloat)" % (name.rsplit("::", 1)[-1], x["op"]), sp=x.get("sp"), cfg=cfg)
            if x.get("k") in ("call", "mcall"):
                cal = H.callee(x) or ""
                if cal.endswith("::to_bits") or cal.endswith("::to_ne_bytes") or cal.endswith("::to_le_bytes") or cal.endswith("::to_be_bytes"):
                    run.ob("C18.R3", "bit-hash:%s" % name.rsplit("::", 1)[-1], False,
                           "%s uses %s (bit patterns distinguish NaNs and +-0 that compare equal)" % (name.rsplit("::", 1)[-1], cal), sp=x.get("sp"), cfg=cfg)
                if cal in ("<f32 as core::cmp::PartialEq>::eq", "<f64 as core::cmp::PartialEq>::eq") or \
                        (cal == "core::cmp::PartialEq::eq" and x.get("k") == "mcall" and is_float_ty(f.ty(x.get("recv_ty")))):
                    run.ob("C18.R3", "raw-float-cmp:%s" % name.rsplit("::", 1)[-1], False, "%s calls PartialEq::eq on a float" % name.rsplit("::", 1)[-1], sp=x.get("sp"), cfg=cfg)
    run.ob("C18.R3", "census", True, "%d nodes of eq/hash and their helpers inspected: no raw float comparison, no bit-level hashing" % n, cfg=cfg)
    # ---- R4 Eq and ValueTuple derives
    run.ob("C18.R4", "Eq", any(i.get("trait") == "core::cmp::Eq" and i.get("self_adt") == V for i in f.impls), "impl Eq for Value exists", cfg=cfg)
    VT = "crate::value::ValueTuple"
    for tr in ("core::cmp::PartialEq", "core::cmp::Eq", "core::hash::Hash"):
        imps = [i for i in f.impls if i.get("trait") == tr and i.get("self_adt") == VT]
        run.ob("C18.R4", "ValueTuple:" + tr.rsplit("::", 1)[-1], len(imps) == 1 and imps[0].get("derived"),
               "ValueTuple derives %s (field-wise over Value)" % tr.rsplit("::", 1)[-1], sp=imps[0]["sp"] if imps else None, cfg=cfg)
    run.floor("C18.R1", "variants", len(variants), 30, cfg)
    run.trusted.append("ordered_float::OrderedFloat and std/third-party payload types implement Eq/Hash coherently")
    run.assumptions.append("payload types other than floats/JSON/vectors have coherent derive-style PartialEq/Hash (std, chrono, time, uuid, decimal, ipnetwork, mac_address)")
