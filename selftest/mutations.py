"""Self-test corpus: breaking mutations (must be reported, naming the instance) and benign rewrites (must stay silent).
Each entry: id, props, kind, file/old/new (or edits=[(file, old, new)...]), expect (substring of the reported key)."""
MUTATIONS = []


def brk(id, props, file, old, new, expect, **kw):
    MUTATIONS.append(dict(id=id, props=props, kind="breaking", file=file, old=old, new=new, expect=expect, **kw))


def ben(id, props, file, old, new, **kw):
    MUTATIONS.append(dict(id=id, props=props, kind="benign", file=file, old=old, new=new, expect="", **kw))


# ---- C01 -------------------------------------------------------------------------------------------------------
brk("c01-inc-after-write", ["C01"], "src/prepare.rs",
    """        self.counter += 1;
        if self.numbered {
            let counter = self.counter;
            write!(self.string, "{}{}", self.placeholder, counter).unwrap();
        } else {""",
    """        if self.numbered {
            let counter = self.counter;
            write!(self.string, "{}{}", self.placeholder, counter).unwrap();
            self.counter += 1;
        } else {""", "C01.R2:push_param")
brk("c01-push-twice", ["C01"], "src/prepare.rs", "        self.values.push(value)\n", "        self.values.push(value.clone());\n        self.values.push(value)\n", "C01.R2:push_param")
brk("c01-mysql-as-null", ["C01"], "src/backend/mysql/query.rs", "sql.push_param(value.clone(), self as _);", "sql.push_param(value.as_null(), self as _);", "C01.R4:prepare_value:Mysql")
brk("c01-build-const-placeholder", ["C01"], "src/query/traits.rs",
    """        let (placeholder, numbered) = query_builder.placeholder();
        let mut sql = SqlWriterValues::new(placeholder, numbered);
        self.build_collect_into(query_builder, &mut sql);""",
    """        let (_placeholder, numbered) = query_builder.placeholder();
        let mut sql = SqlWriterValues::new("?", numbered);
        self.build_collect_into(query_builder, &mut sql);""", "C01.R6:build")
brk("c01-literal-mark", ["C01"], "src/backend/query_builder.rs",
    """            write!(sql, " LIMIT ").unwrap();
            self.prepare_value(limit, sql);
        }

        if let Some(offset) = &select.offset {""",
    """            write!(sql, " LIMIT ?").unwrap();
        }

        if let Some(offset) = &select.offset {""", "C01.R7:literal-mark")
brk("c01-into-parts-other", ["C01"], "src/prepare.rs", "(self.string, Values(self.values))", "(self.string, Values(self.values.into_iter().rev().collect()))", "C01.R3:into_parts")
ben("c01-benign-direct-counter", ["C01"], "src/prepare.rs",
    """            let counter = self.counter;
            write!(self.string, "{}{}", self.placeholder, counter).unwrap();""",
    """            write!(self.string, "{}", self.placeholder).unwrap();
            write!(self.string, "{}", self.counter).unwrap();""")
ben("c01-benign-push-str", ["C01"], "src/prepare.rs",
    """            write!(self.string, "{}", self.placeholder).unwrap();
        }""",
    """            self.string.push_str(&self.placeholder);
        }""")
