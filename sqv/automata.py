"""Small NFA toolkit (stdlib only): Thompson-style construction with epsilon edges, subset construction, language
inclusion with a shortest counterexample."""
from collections import deque


# refined nonterminals: a word with the refined symbol is also a word with the general one
REFINES = {"<atom>": "<expr>"}


class NFA:
    def __init__(self):
        self.n = 0
        self.eps = {}      # state -> set(states)
        self.tr = {}       # state -> {symbol: set(states)}
        self.info = {}     # (state, symbol, target) -> provenance (what wrote this token)

    def state(self):
        s = self.n
        self.n += 1
        return s

    def add_eps(self, a, b):
        self.eps.setdefault(a, set()).add(b)

    def add(self, a, sym, b, info=None):
        self.tr.setdefault(a, {}).setdefault(sym, set()).add(b)
        if info is not None:
            self.info[(a, sym, b)] = info

    def closure(self, states):
        seen = set(states)
        todo = list(states)
        while todo:
            s = todo.pop()
            for t in self.eps.get(s, ()):
                if t not in seen:
                    seen.add(t)
                    todo.append(t)
        return frozenset(seen)

    def step(self, states, sym):
        out = set()
        for s in states:
            out |= self.tr.get(s, {}).get(sym, set())
        return self.closure(out)

    def symbols_from(self, states):
        out = set()
        for s in states:
            out |= set(self.tr.get(s, {}).keys())
        return out


def included(a, a_start, a_end, b, b_start, b_end, limit=400000, skip=None):
    """Is L(a) a subset of L(b)?  Returns None if yes, else (word, provenance, position): a shortest word accepted by `a`
    and not by `b`; provenance is that of the first symbol after which no sentence of `b` is possible any more (or of the
    last symbol when the word is a proper prefix of a sentence of `b`).  `skip(info)` removes transitions of `a`."""
    A0 = a.closure([a_start])
    B0 = b.closure([b_start])
    start = (A0, B0)
    seen = {start}
    q = deque([(start, [], None, None)])
    n = 0
    while q:
        (A, B), word, prov, dead = q.popleft()
        n += 1
        if n > limit:
            raise RuntimeError("inclusion search limit")
        if a_end in A and b_end not in B:
            return (word, dead[0], dead[1]) if dead is not None else (word, prov, len(word) - 1)
        for sym in sorted(a.symbols_from(A)):
            targets = set()
            p = None
            for s in A:
                for t in a.tr.get(s, {}).get(sym, ()):
                    info = a.info.get((s, sym, t))
                    if skip is not None and info is not None and skip(info):
                        continue
                    targets.add(t)
                    p = info or p
            if not targets:
                continue
            A2 = a.closure(targets)
            B2 = b.step(B, sym) if B else frozenset()
            if B and sym in REFINES:
                B2 = frozenset(B2 | b.step(B, REFINES[sym]))
            key = (A2, B2)
            if key in seen:
                continue
            seen.add(key)
            d2 = dead
            if d2 is None and not B2:
                d2 = (p, len(word))
            q.append((key, word + [sym], p, d2))
    return None


def accepts(a, start, end, word):
    cur = a.closure([start])
    for sym in word:
        cur = a.step(cur, sym)
        if not cur:
            return False
    return end in cur
