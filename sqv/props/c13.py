"""C13  SQLite schema statements create exactly the declared schema.  DESIGN.md section 4, C13."""
from ._structure import run_structure

META = ("other",
        "C13.R1 grammar refinement - the token language each statement renderer can write (NFA built from the linked template "
        "IR: guards free, but correlated boolean flags, shared first-flags, loop-index guards, constant enum arguments, "
        "variants excluded by a calling match and fold decision tables tracked) is included in the dialect grammar skeleton "
        "specs/<dialect>.ebnf; a counterexample is a shortest token string with the emission that leaves the grammar; C13.R6 "
        "hook discipline - inner renderers of overridable backend hooks (specs/hooks.json) are called only from implementations "
        "of the hook;  "
        "Structural conditions of the SQLite schema renderers: C13.R2 type table - every ColumnType variant is tabulated (with "
        "and without AUTOINCREMENT), SQLite's documented affinity algorithm is applied to the emitted type name and compared "
        "with the intended affinity; an AUTOINCREMENT column is declared exactly INTEGER; unsupported types are refused; "
        "C13.R3 field consumption for the schema statement structs with reviewed SQLite exceptions; C13.R4 separators, "
        "parentheses, adjacency, forward iteration; referential-action keywords",
        "one obligation per type-table row, per struct field, per separated list, per function with parentheses")


def check(run):
    run_structure(run, "C13", "schema", ["sqlite"], run.tier_configs(["default", "all"], ["exacttype"]))
    run.assumptions.append("NOT decided: acceptance by the engine and the catalogue contents afterwards (needs execution)")
    run.assumptions.append("identifier and literal safety inside schema statements: C03/C04")
